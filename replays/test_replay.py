"""Plain pytest replay of every recorded counterexample, with no explorer involved:
    cd /verif && PYTHONHASHSEED=0 PYTHONPATH=/repo:/verif /venv/bin/python -m pytest -q replays/test_replay.py
* replays/fixed/*.json  - defects repaired by a `fix:` commit: the property must hold on the recorded case now;
* replays/known/*.json  - recorded known findings: the recorded case must still violate the property
                          (if one starts passing, the entry in known_findings.txt is stale).
Each case is executed twice and the two observations must agree.
"""
import glob
import importlib
import json
import os

import pytest

HERE = os.path.dirname(os.path.abspath(__file__))


def _cases(kind):
    return sorted(glob.glob(os.path.join(HERE, kind, "*.json")))


def _run(path):
    if os.environ.get("PYTHONHASHSEED") != "0":
        # some recorded cases depend on string hashing inside third-party code (jsonpatch): replay under the hash seed
        # bin/check uses, in a child interpreter
        import subprocess
        import sys
        env = dict(os.environ, PYTHONHASHSEED="0",
                   PYTHONPATH=os.pathsep.join([os.path.dirname(HERE), "/repo", os.environ.get("PYTHONPATH", "")]))
        code = ("import json,sys; sys.path.insert(0, %r); import test_replay as t; "
                "print('REPLAY ' + json.dumps(t._run(%r), default=repr))" % (HERE, path))
        r = subprocess.run([sys.executable, "-c", code], env=env, capture_output=True, text=True)
        lines = [ln for ln in r.stdout.splitlines() if ln.startswith("REPLAY ")]
        assert r.returncode == 0 and lines, r.stdout[-2000:] + r.stderr[-2000:]
        return json.loads(lines[-1][7:])
    from mc import core
    data = json.load(open(path))
    mod = importlib.import_module(core.CHECKS[data["property"]])
    mod.setup()
    a = mod.replay(data["case"])
    b = mod.replay(data["case"])
    assert core.canon(a) == core.canon(b), "two replays of the same case disagree"
    return a


@pytest.mark.parametrize("path", _cases("fixed"), ids=os.path.basename)
def test_fixed_defect_stays_fixed(path):
    assert _run(path) == [], "a repaired defect is back"


@pytest.mark.parametrize("path", _cases("known"), ids=os.path.basename)
def test_known_finding_still_reproduces(path):
    assert _run(path), "the recorded known finding no longer reproduces: update known_findings.txt"
