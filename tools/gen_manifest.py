#!/usr/bin/env python3
"""Regenerates MANIFEST.json from the table below (run: python3 tools/gen_manifest.py)."""
import json
import os

ROOT = os.path.dirname(os.path.dirname(os.path.abspath(__file__)))

# pid -> (technique, level text, level note, design ref)
CLAIMED = {
    "C04": ("bounded-exhaustive enumeration of all ordered forests (<=5..7 nodes, depth<=5) per vendor through the real join/split/parse_to_tree, compared with the tree and with an independent renderer; plus every ordered pair of vendors in a process forked from a fresh interpreter (history of formatter use)",
            "For each of the 14 registered vendors every in-domain forest up to the bound is rendered and parsed back (tree equality incl. "
            "order), re-rendered (fixed point), rendered through annet gen's format_config_blocks, compared character by character with an "
            "independent vendor-syntax printer, and device-style text from that printer is parsed to the same tree.",
            "Trusted: mc/ref/vendortext.py (alphabets, syntactic domain rules, reference printers); enumeration completeness cross-checked by an independent counting recurrence.",
            "DESIGN.md §3 C04"),
    "C05": ("explicit-state BFS to closure over the real indent-stack generators' frame state, lock-step with a reference offside machine; plus exhaustive texts up to 5-7 lines",
            "All reachable states (indents, curr_level, g_level, stack read from gi_frame.f_locals) of the real _stacked/_stripped_indents "
            "chain under an alphabet of 435 events are explored to closure and every transition compared with an independent offside machine "
            "(paths, ParserError exactly where the reference refuses); all texts up to the line bound go through parse_to_tree with the Common "
            "and Huawei splitters and are compared with the reference tree.",
            "Trusted: mc/ref/offside.py; tabs count one column in both models; line/number/level frame locals excluded from the state (argued in the check).",
            "DESIGN.md §3 C05"),
    "C06": ("bounded-exhaustive enumeration of (ACL text, forest) and (ACL pair, forest) through the real apply_acl/filter_config against a reference cover relation; plus all two-step histories of forests on one freshly compiled ACL for the ACLs with overlapping rules",
            "For every ACL of the grammar and every forest up to 4-5 nodes over the ACL's row alphabet (plus a negated-row family): result "
            "equals the reference filter, is an order-preserving subtree, idempotent, strict mode raises AclError naming the first uncovered "
            "row iff the reference finds one; for ACL pairs the merged ACL passes everything either passes alone (one recorded known finding).",
            "Trusted: mc/ref/acl.py and its syntactically stated unambiguous domain.",
            "DESIGN.md §3 C06"),
    "C07": ("bounded-exhaustive enumeration of (pattern,row) pairs on the real compiler vs a reference token matcher",
            "Every pattern of the rule grammar up to 4 tokens is run against every row up to 5 words through the real "
            "compile_row_regexp/_make_reverse and compared with an independent token-walking matcher; every shipped rule "
            "line is exercised with a synthesised row and near-miss mutations. Complete under the stated bound.",
            "Trusted: Python's re for inner /re/ fragments; the reference matcher mc/ref/rulelang.py; bound: alphabet of 6 tokens / 6 words.",
            "DESIGN.md §3 C07"),
    "C01": ("explicit-state BFS to closure over device states: every (state, desired config) transition through the real _diff_and_patch and cmd_paths, executed on a reference device; part V: bounded-exhaustive enumeration of label-annotated forests over the rows of 20 shipped vendor logic functions, every removed row must be accounted for by a command",
            "For every rulebook of a grammar covering literals,*,~,*/re/, nesting, %global (also of two origins), %ordered, %rewrite (child rules, "
            "blocks with plain children), %ignore_case, undo_redo/permanent/ignore_changes and '!' rules, on 2-4 vendors, every state of the rulebook's complete config universe is an initial state "
            "and every config a deploy event; the reachable set is closed, so chains of any length are covered. Each transition "
            "checks the final device state against an independent expectation, emptiness of the second diff/patch.",
            "Trusted: the reference device and rule-selection models (mc/ref/device.py, mc/ref/rb.py); universes bounded to <=36 (quick) / <=400 (thorough) configs per rulebook.",
            "DESIGN.md §3 C01"),
    "C02": ("bounded-exhaustive enumeration of (ACL text or merged ACL pair, old, new) through the real compile_acl_text/_diff_and_patch (each case also with a filter ACL that passes everything: nothing may change); command paths judged by a reference ACL cover relation, effects by a reference device; generator output with rows in negated form enumerated separately; a violation that only a long-lived compiled ACL shows is reported with the earlier case that makes it appear",
            "Every ACL of a grammar (nesting, *, ~, %global, %cant_delete=0/1, interface default, merged generator ACLs) x all pairs of "
            "small forests over the ACL's row alphabet: every command path must be ACL-covered level by level, uncovered rows of the "
            "device must survive untouched, cant_delete rows must survive.",
            "Trusted: mc/ref/acl.py cover relation (domain: unambiguous sibling rules), mc/ref/device.py, a fixed default-logic rulebook whose keys capture whole rows.",
            "DESIGN.md §3 C02"),
    "C03": ("bounded-exhaustive enumeration of all (old,new) pairs of each rulebook's config universe through the real make_diff/strip_unchanged/formatter.diff/gen_pre_as_diff against a path-wise reference; plus the `annet diff` worker end to end on the shipped corpus (stub Loader, real generators) with property-level oracles",
            "Every ordered pair of configs of every grammar rulebook is diffed by the real code; op exactness per path, both projections, "
            "UNCHANGED soundness, MOVED minimality in %ordered groups, self-diff emptiness and read-back of both textual renderings "
            "are compared with a reference computed from the configs and the rulebook structure.",
            "Trusted: mc/ref/rb.py rule selection; the small readers of the signed formats in the check.",
            "DESIGN.md §3 C03"),
    "C08": ("bounded-exhaustive enumeration: ordering rulebooks x all (old,new) patches of a fixed rulebook against a reference rank; shipped corpus x deleted unchanged rows; all vendors x forests through order_config; plus the `annet gen` worker end to end on the shipped corpus",
            "Every ordering rulebook of a grammar (<=3 disjoint sibling rules, nesting, %order_reverse pins, %global) against every patch the "
            "real pipeline yields over a complete config universe: sibling order must respect the reference rank, removal precedes re-creation, "
            "the command multiset does not depend on the ordering rulebook; on the shipped corpus deleting an unchanged line keeps the relative "
            "order; order_config only permutes, is idempotent and keeps unmentioned rows in order, for all 14 vendors.",
            "Trusted: reference rank in the check (rules numbered from 1); disjoint-language ordering rulebooks.",
            "DESIGN.md §3 C08"),
    "C09": ("bounded-exhaustive enumeration of PatchTrees (synthetic forests and real make_patch outputs) x vendors x commit/finalize flags; displayed patch, cmd_paths and apply_deploy_rulebook compared line by line; deploy-rule parameters against a reference chain matcher; plus the production callers: CliDeployerJob.parse_result on the shipped corpus, and `annet patch` worker vs deploy job end to end",
            "All PatchTree forests up to 4-5 nodes over per-vendor alphabets (with the formatters' special block heads) for 10 block-structured "
            "and 3 flattening vendors, all PatchTrees the real make_patch yields over small grammar universes, and generated deploy "
            "rulebooks: the three renderings must agree, the session wrapper must equal a hand-written table, and every Command must carry "
            "the parameters of the rule chain matching its path.",
            "Trusted: wrapper table and reference flattening in the check; distinct sibling rows in synthetic trees; XPL bodies well-formed (syntactic rule in the check).",
            "DESIGN.md §3 C09"),
    "C10": ("bounded-exhaustive enumeration of generator programs (ASTs over yield/tuple/multi-line/block/block_if/multiblock) x per-generator ACLs, 1-3 generators, through the real _old_new_per_device",
            "Every program up to 3-4 nodes becomes a real PartialGenerator; sets of generators with ACLs from a small grammar run through the "
            "production composition; outcome (GeneratorError / AclNotExclusiveError / merged config) must equal a reference interpreter plus "
            "reference ACL cover and exclusivity.",
            "Trusted: reference interpreter in the check, mc/ref/acl.py; stubbed context (config='empty', no implicit rules, no filter ACL).",
            "DESIGN.md §3 C10"),
    "C11": ("bounded-exhaustive enumeration of all (S_old,S_new) subset pairs of a 6-8 element VLAN universe x all contiguous line splittings x rule kinds through the shipped rulebooks' make_diff/make_pre/make_patch; emitted commands executed on a VLAN-set machine",
            "Every pair of subsets, every way of wrapping the range list over 1-3 lines, on the shipped Huawei/Cisco/Nexus rules "
            "(trunk allow-pass, hybrid tagged/untagged, vlan batch + vlan blocks, stp instance, vlan pool, Cisco vlan / allowed vlan, "
            "vlan group): the emitted rows are executed in order by an independent VLAN-set machine; final set == S_new and no VLAN "
            "common to both sets is removed even transiently; expand(collapse(S)) == S.",
            "Trusted: mc/ref/vlan.py (range parser, set machine, command meaning); print style of old and new identical per dialect.",
            "DESIGN.md §3 C11"),
    "C12": ("stateless model checking of the real annet.parallel under a controlled scheduler on virtual processes/queues: all interleavings with state de-duplication, plus preemption-bounded DFS; TLA+ model (TLC) bound to the code by edge-cover conformance replay; bounded-exhaustive enumeration of the production callers (api.gen/patch/diff) over every ordered device selection",
            "The unmodified Parallel.irun/run, _check_children and _pool_worker run on virtual multiprocessing primitives; every "
            "scheduling decision (worker steps, feeder flushes, process exits, parent polls) is enumerated. Small configurations "
            "are explored to closure over all interleavings (states de-duplicated on the implementation's own frames), larger "
            "ones with a preemption bound; every execution is judged: delivered multiset == submitted, payloads, termination, no hang. "
            "Part callers: annet.api.gen / patch / diff over a three-device fabric for every ordered selection of ids: one outcome per submitted id and for no other.",
            "Trusted: the virtual Queue/Process semantics in mc/sched.py (feeder flush before exit; timed get raises Empty only on an empty pipe); task bodies pure; no external kill.",
            "DESIGN.md §3 C12"),
    "C13": ("bounded-exhaustive enumeration of JSON document pairs of one schema x glob pointer lists through the real apply_json_fragment / make_patch+apply_patch / apply_acl_filters / new_json_fragment_files against a set-theoretic reference on flattened paths; PCDeployerJob.parse_result for JSON-fragment files bound to make_patch; the other file's generator at every position of the chain",
            "All (old, fragment) pairs whose union fills <=1-2 leaf slots at depth <=3 over key sets including '/', '~', '|', '*' keys x all 169 lists "
            "of 1-2 patterns: selected parts equal the fragment, the rest equals old, re-merging changes nothing; all ordered document pairs "
            "(incl. all arrays <=3 elements) round-trip through make_patch/apply_patch; filters return sub-documents; two-generator chains.",
            "Trusted: mc/ref/jsonref.py (own RFC 6901 parser, glob matcher, flattening); array-hole requests counted, not judged.",
            "DESIGN.md §3 C13"),
    "C14": ("bounded-exhaustive enumeration of RouteMap programs over the complete documented R.*/rule.* alphabet x entity variants x 3 vendors through the real generators with ACL enforcement",
            "The complete one-statement space (62 conditions x 92 actions x huawei/arista/cumulus, 8 entity variants, 5 result forms) in quick, "
            "two-condition/two-action/two-statement combinations in thorough: no AclError, parse-back nesting equals yielded nesting, "
            "referenced list names are defined by the list generators, and per action (error, no lines) or (lines, no error) by "
            "differential attribution on the raw generator stream.",
            "Trusted: mc/ref/rplref.py line grammars for references/definitions; domain: names exist and have the right type.",
            "DESIGN.md §3 C14"),
    "C15": ("bounded-exhaustive enumeration of (topology, rule registry, handler table) x all registration permutations through the real MeshExecutor, against a reference executor, a mirrored-view oracle and permutation invariance; complete merger-law tables",
            "12-15 families of topologies (2-5 devices, 0-3 parallel links) x registries of <=3 device/direct/indirect/virtual rules with name templates "
            "and filters x table-driven handlers: each side's peer must mirror the other side's assignment, every registration order gives the same "
            "BgpConfig or an error in all, results equal a reference executor; merger laws complete over small value domains for all 20 model classes.",
            "Trusted: mc/ref/meshref.py (reference executor, merge laws, declared-merger table); BgpConfig.peers compared as a multiset.",
            "DESIGN.md §3 C15"),
    "C16": ("differential bounded-exhaustive enumeration: shipped corpus (+ comment rulebook), per-vendor cross products, and all labelled forests over rows of every custom-logic rule, through both front ends and the file workers",
            "For every (old,new,hw): cmd_paths of the file front end == cmd_paths of the device front end as ordered lists, diff entries equal, "
            "file_patch_worker/file_diff_worker on real temp files agree with the device rendering; exceptions must be two-sided.",
            "Trusted: nothing hand-written is expected (both sides are annet code); cause labels are informational.",
            "DESIGN.md §3 C16"),
    "C17": ("bounded-exhaustive enumeration of forests over mechanically derived row universes for 16 hardware classes through the real implicit.config/merge_dicts and the shipped rulebooks, against an independent completion reference; plus the real annet.gen._old_new_per_device (add_implicit, --acl-safe) on (device text, unsafe generator, safe generator) triples",
            "All forests <=5-6 nodes per class: explicit rows kept, completion idempotent, default present iff no row of the rule's pattern at that place; "
            "pairs (t,u): no patch command for a default absent from both sides; one recorded known finding (default next to another explicit value).",
            "Trusted: mc/ref/implicitref.py (own parser and matcher); clause 4 judged where both sides have the parent block (stated premise).",
            "DESIGN.md §3 C17"),
    "C18": ("exhaustive enumeration of the finite device database (168 sequences x synthesised models x vendor registration orders x software strings) on the real HardwareView/Registry/RulebookProvider",
            "The space is finite and covered completely: every devdb sequence gets validated model strings; truth of all sequences and "
            "abbreviations, all template predicates, vendor choice under all rotations/permutations of registration, and rulebook "
            "loading/determinism on fresh providers are compared with a naive regex-chain reference.",
            "Trusted: Python re; mc/hwmodels.py synthesiser (every model re-validated by re.search); devdb.json read as data.",
            "DESIGN.md §3 C18"),
    "C19": ("bounded-exhaustive enumeration of Entire-generator sets x listing permutations x old file maps x reload flags through run_file_generators -> PCDeployerJob.parse_result / pc_diff; every listing also through the real annet.gen._old_new_per_device (pc branch)",
            "Complete under the bound (1-3 generators over 2 paths, 4 contents, reload strings, safe flags; all permutations; all old maps; "
            "entire_reload yes/no/force; acl_safe): winner selection, upload decision, uploaded bytes, reload attachment and pc_diff are "
            "compared with a table-driven reference. Four recorded known findings (line-diff based upload decision).",
            "Trusted: mc/ref/filedev.py decision table; harness DeployDriver with empty command lists; stage-2 de-duplication keyed on the fields parse_result reads (guarded by a recording OldNewResult).",
            "DESIGN.md §3 C19"),
    "C20": ("explicit-state search over job histories: every node a live interpreter forked from a cold template, every edge one job run once in a forked process, de-duplicated by a fingerprint of all process-global annet state; five jobs repeated with plain-dict trees",
            "34 jobs (shipped corpus x 6 vendors with and without shared compiled ACLs, order_config, synthetic rulebooks whose logic writes "
            "to its rule argument): result(j | history) == result(j | fresh process) for all histories to depth 2 (quick) / 3 (thorough, "
            "fingerprint-pruned), deep snapshots of old/new/compiled rulebooks equal before and after every call.",
            "Trusted: mc/statehash.py deep hasher and lru_cache content reader (CPython 3.12 layout, self-tested); third-party module state outside the fingerprint.",
            "DESIGN.md §3 C20"),
}

NOT_YET = {}

props = [json.loads(l) for l in open(os.path.join(ROOT, "properties.jsonl"))]
checks = []
na = []
for p in props:
    pid = p["id"]
    if pid in CLAIMED:
        tech, text, note, ref = CLAIMED[pid]
        checks.append({
            "property_id": pid,
            "quick_cmd": "bin/check %s quick" % pid,
            "thorough_cmd": "bin/check %s thorough" % pid,
            "evidence_file": "/verif/evidence/%s.json" % pid,
            "replay_cmd_template": "bin/check %s --replay {path}" % pid,
            "engine": "mc",
            "level_claimed": {"category": "model_checking", "text": text, "design_ref": ref},
            "level_note": note,
            "technique": tech,
        })
    else:
        na.append({"property_id": pid, "reason": NOT_YET.get(pid, "check not built yet in this revision of /verif (planned, see DESIGN.md §3); not a statement that model checking cannot apply")})

manifest = {
    "version": 1,
    "setup_cmd": "/venv/bin/python -c 'import annet, sys; sys.path.insert(0, \"/verif\"); import mc.core' && mkdir -p /verif/evidence /verif/replays/out",
    "hooks": {
        "guard": "ANNET_VERIF",
        "enable": "ANNET_VERIF=1 in the environment (bin/check exports it); no source hook is currently needed: all seams are public functions or module attributes replaced from the harness",
        "baseline_off_cmd": "cd /repo && /venv/bin/python -m pytest -ra -q -p no:cacheprovider --timeout=900 --continue-on-collection-errors",
        "source_commits": [],
        "add_only": True,
    },
    "engines": [
        {"name": "mc", "path": "/verif/mc", "serves_properties": sorted(CLAIMED),
         "kind_free_text": "hand-written explicit-state / bounded-exhaustive explorer for Python (mc/core.py sharded driver, mc/sched.py controlled scheduler, mc/e2e.py end-to-end seam for the production workers) running the real annet code against reference models in mc/ref"},
    ],
    "checks": checks,
    "not_applicable": na,
    "notes": "bin/check Cxx quick|thorough; evidence/Cxx.json rewritten on every run; known_findings.txt lists recorded genuine defects by signature.",
}
json.dump(manifest, open(os.path.join(ROOT, "MANIFEST.json"), "w"), indent=1)
print("claimed:", sorted(CLAIMED), "not claimed:", [x["property_id"] for x in na])
