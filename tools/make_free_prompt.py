#!/usr/bin/env python3
"""tools/make_free_prompt.py <seed id> "<nudge>"  -> free-choice seed prompt: all twenty property texts, the agent picks the
property and the site; scratch worktree /tmp/seed/<id>, /tmp/seed/out-<id>/. Nothing else of /verif is in the prompt."""
import json, os, subprocess, sys
sid, nudge = sys.argv[1], (sys.argv[2] if len(sys.argv) > 2 else "")
wt, out = "/tmp/seed/%s" % sid, "/tmp/seed/out-%s" % sid
os.makedirs("/tmp/seed", exist_ok=True)
if not os.path.exists(wt):
    subprocess.check_call(["git", "-C", "/repo", "worktree", "add", "--detach", wt, "HEAD"], stdout=subprocess.DEVNULL, stderr=subprocess.DEVNULL)
os.makedirs(out, exist_ok=True)
props = [json.loads(l) for l in open("/verif/properties.jsonl")]
text = ("Below are TWENTY properties users of annet rely on. Choose ONE of them yourself - the one for which you can find the code site "
        "where a regression would most plausibly slip past the existing tests AND past a reviewer who tries small synthetic inputs "
        "through the core functions. Say in notes.md which property you chose (its id) and why that site. %s\n\n" % nudge)
for p in props:
    a = p["anchors"]
    text += "Property %s: %s\nStatement: %s\nAnchors (files): %s\n\n" % (p["id"], p["title"], p["statement"], ", ".join(a["files"]))
tmpl = open("/verif/tools/SEED_PROMPT.txt").read()
path = "/tmp/seed/prompt-%s.txt" % sid
open(path, "w").write(tmpl.replace("{WT}", wt).replace("{OUT}", out).replace("{PROP}", text).replace("The property below is", "One of the properties below is"))
print(path)
