#!/usr/bin/env python3
"""tools/make_neutral_prompt.py <id> "<scope text>"  -> scratch worktree /tmp/seed/<id>, /tmp/seed/out-<id>/, prompt file.
The prompt (tools/NEUTRAL_PROMPT.txt) asks for a behaviour-preserving refactoring; nothing of /verif is in it."""
import os, subprocess, sys
sid, scope = sys.argv[1], sys.argv[2]
wt, out = "/tmp/seed/%s" % sid, "/tmp/seed/out-%s" % sid
os.makedirs("/tmp/seed", exist_ok=True)
if not os.path.exists(wt):
    subprocess.check_call(["git", "-C", "/repo", "worktree", "add", "--detach", wt, "HEAD"], stdout=subprocess.DEVNULL, stderr=subprocess.DEVNULL)
os.makedirs(out, exist_ok=True)
tmpl = open("/verif/tools/NEUTRAL_PROMPT.txt").read()
p = "/tmp/seed/prompt-%s.txt" % sid
open(p, "w").write(tmpl.replace("{WT}", wt).replace("{OUT}", out).replace("{SCOPE}", scope).replace("{ID}", sid))
print(p)
