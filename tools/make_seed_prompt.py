#!/usr/bin/env python3
"""tools/make_seed_prompt.py <seed id> <property> "<mechanisms already used>"  -> creates the scratch worktree
/tmp/seed/<id> (git worktree of /repo HEAD), /tmp/seed/out-<id>/ and prints the path of the prompt file.
The prompt holds tools/SEED_PROMPT.txt with the property's text from properties.jsonl - nothing else of /verif."""
import json, os, subprocess, sys
sid, pid, used = sys.argv[1], sys.argv[2], (sys.argv[3] if len(sys.argv) > 3 else "")
wt, out = "/tmp/seed/%s" % sid, "/tmp/seed/out-%s" % sid
os.makedirs("/tmp/seed", exist_ok=True)
if not os.path.exists(wt):
    subprocess.check_call(["git", "-C", "/repo", "worktree", "add", "--detach", wt, "HEAD"], stdout=subprocess.DEVNULL, stderr=subprocess.DEVNULL)
os.makedirs(out, exist_ok=True)
prop = next(json.loads(l) for l in open("/verif/properties.jsonl") if json.loads(l)["id"] == pid)
a = prop["anchors"]
text = "Property %s: %s\n\nStatement: %s\n\nQuantifier (%s): %s\n\nAnchors (files): %s\nMechanisms: %s" % (
    pid, prop["title"], prop["statement"], ",".join(prop["quantifier"]["over"]), prop["quantifier"]["text"],
    ", ".join(a["files"]), "; ".join("%s [%s]" % (m["name"], m["where"]) for m in a["mechanism"]))
if used:
    text = ("Previous engineers already used these mechanisms for this property - choose a clearly DIFFERENT code site and "
            "mechanism (another function, ideally another file among the anchors; a production caller or entry point that "
            "wires the pieces together is as good a place as a core function): %s\n\n" % used) + text
tmpl = open("/verif/tools/SEED_PROMPT.txt").read()
p = "/tmp/seed/prompt-%s.txt" % sid
open(p, "w").write(tmpl.replace("{WT}", wt).replace("{OUT}", out).replace("{PROP}", text))
print(p)
