#!/usr/bin/env python3
"""tools/make_site_prompt.py <seed id> <property> "<site>"  -> seed prompt that names the code site (an anchored mechanism no stored
seed has touched yet); scratch worktree /tmp/seed/<id>, /tmp/seed/out-<id>/. Only the property text and the site are in it."""
import json, os, subprocess, sys
sid, pid, site = sys.argv[1], sys.argv[2], sys.argv[3]
wt, out = "/tmp/seed/%s" % sid, "/tmp/seed/out-%s" % sid
os.makedirs("/tmp/seed", exist_ok=True)
if not os.path.exists(wt):
    subprocess.check_call(["git", "-C", "/repo", "worktree", "add", "--detach", wt, "HEAD"], stdout=subprocess.DEVNULL, stderr=subprocess.DEVNULL)
os.makedirs(out, exist_ok=True)
prop = next(json.loads(l) for l in open("/verif/properties.jsonl") if json.loads(l)["id"] == pid)
a = prop["anchors"]
text = ("Make your change in or directly around this code site (nowhere else, unless a second cooperating edit is part of the idea): %s\n"
        "If after studying it you are convinced no change there can break the property below while the tests stay green, say so in notes.md "
        "and pick the nearest site that can.\n\n" % site)
text += "Property %s: %s\n\nStatement: %s\n\nQuantifier (%s): %s\n\nAnchors (files): %s" % (
    pid, prop["title"], prop["statement"], ",".join(prop["quantifier"]["over"]), prop["quantifier"]["text"], ", ".join(a["files"]))
tmpl = open("/verif/tools/SEED_PROMPT.txt").read()
p = "/tmp/seed/prompt-%s.txt" % sid
open(p, "w").write(tmpl.replace("{WT}", wt).replace("{OUT}", out).replace("{PROP}", text))
print(p)
