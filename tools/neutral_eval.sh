#!/bin/bash
# tools/neutral_eval.sh <id> <Cxx>...   a behaviour-preserving refactoring produced by an independent sub-agent
# (/tmp/seed/out-<id>/patch.diff): confirm the 337 tests pass with it, then run the named quick checks against a scratch
# copy carrying it. Every check must exit 0 without a VIOLATION line: anything else is a false alarm of /verif.
ID="$1"; shift
WT=/tmp/seed/$ID; OUT=/tmp/seed/out-$ID
P="${NEUTRAL_PATCH:-$OUT/patch.diff}"
echo "== $ID =="; grep -c '^[-+][^-+]' "$P" | sed 's/^/changed lines: /'
if [ -d "$WT" ]; then
  T=$(cd "$WT" && PYTHONPATH="$WT" timeout 1200 /venv/bin/python -m pytest -q -p no:cacheprovider --timeout=900 -q 2>&1 | tail -1)
  echo "tests with change: $T"
fi
SCR="$(mktemp -d /tmp/neutral.XXXXXX)"; trap 'rm -rf "$SCR"' EXIT
mkdir -p "$SCR/tree"; rsync -a --exclude .git --exclude __pycache__ /repo/ "$SCR/tree/"
( cd "$SCR/tree" && patch -p1 -s < "$P" ) || { echo "patch failed"; exit 2; }
find "$SCR/tree" -name __pycache__ -prune -exec rm -rf {} + 2>/dev/null
rc=0
for PID in "$@"; do
  ANNET_TREE="$SCR/tree" VERIF_EVIDENCE_DIR="$SCR/ev" /verif/bin/check "$PID" quick > "$SCR/out-$PID.txt" 2>&1; r=$?
  if [ $r -ne 0 ] || grep -q "^VIOLATION" "$SCR/out-$PID.txt"; then
    echo "FALSE-ALARM? $PID exit=$r"; grep -E "^VIOLATION|not decided|Traceback|Error" "$SCR/out-$PID.txt" | cut -c1-300 | head -8
    grep -A3 "^VIOLATION" "$SCR/out-$PID.txt" | grep "signature\|detail" | cut -c1-500 | head -6
    mkdir -p /tmp/seed/fa-$ID; cp "$SCR/out-$PID.txt" /tmp/seed/fa-$ID/; cp -r /verif/replays/out /tmp/seed/fa-$ID/replays-$PID 2>/dev/null
    rc=1
  else
    echo "silent    $PID  $(grep -E "^$PID quick" "$SCR/out-$PID.txt" | cut -c1-200)  $(grep -c 'not decided' "$SCR/out-$PID.txt") not-decided"
  fi
done
exit $rc
