#!/bin/bash
# tools/neutral_regress.sh [ids...]  re-runs the stored behaviour-preserving refactorings (neutral/<id>/patch.diff) against the
# quick checks of the properties their files are anchored in; every check must stay silent.
cd "$(dirname "$0")/.." || exit 2
declare -A MAP=( [N01]="C12" [N02]="C04 C05 C09 C03 C01" [N03]="C01 C02 C03 C06 C08 C10 C16 C20" [N04]="C07 C18 C20 C01 C06 C08 C09"
                 [N05]="C10 C16 C17 C19 C09 C03 C13 C02 C20" [N06]="C15" [N07]="C14 C13" [N08]="C11 C17 C18 C09 C10 C20"
                 [N09]="C01 C02 C03 C06 C07 C08 C09 C10 C16 C20" [N10]="C04 C05 C09 C03 C01 C18"
                 [N11]="C01 C02 C03 C16 C08 C09 C10 C11 C13 C17 C19 C20 C12" [N12]="C15 C14 C13 C17 C11 C10 C20"
                 [N13]="C12 C20" [N14]="C04 C05 C09 C03 C01 C16" [N15]="C01 C02 C03 C06 C08 C10 C16 C20" [N16]="C07 C18 C20 C01 C06 C08 C09 C02"
                 [N17]="C10 C17 C19 C13 C02 C20 C03 C08" [N18]="C09 C16 C19 C13 C03 C12 C20 C02"
                 [N19]="C15" [N20]="C14" [N21]="C11 C13 C16 C01 C10 C20 C17" [N22]="C18 C17 C04 C07 C09 C20 C16"
                 [N23]="C01 C02 C03 C06 C08 C09 C10 C11 C12 C13 C16 C17 C19 C20 C05 C07 C14"
                 [N24]="C08 C01 C09 C16 C20" [N25]="C02 C06 C10 C20 C01" [N26]="C03 C16 C19 C09 C13" [N27]="C09 C20 C16"
                 [N28]="C10 C17 C19 C14" [N29]="C12" [N30]="C11 C01 C16 C20" [N31]="C17 C12 C20 C10" )
ids=("$@"); [ ${#ids[@]} -eq 0 ] && ids=($(ls neutral | grep '^N'))
rc=0
for id in "${ids[@]}"; do
  NEUTRAL_PATCH="$PWD/neutral/$id/patch.diff" tools/neutral_eval.sh "$id" ${MAP[$id]} || rc=1
done
exit $rc
