#!/bin/bash
# tools/seed_eval.sh <seed id, e.g. C06a> <property, e.g. C06> [tier]
# Confirms a seeded change produced by an independent sub-agent (tests pass with it, demo fails with it and passes
# without it), then runs the property's check against it on a scratch copy. Prints a summary; writes nothing to /repo.
ID="$1"; PID="$2"; TIER="${3:-quick}"
WT=/tmp/seed/$ID; OUT=/tmp/seed/out-$ID
echo "== $ID ($PID) =="
git -C "$WT" diff --stat | tail -1
T=$(cd "$WT" && PYTHONPATH="$WT" timeout 1200 /venv/bin/python -m pytest -q -p no:cacheprovider --timeout=900 -q 2>&1 | tail -1)
echo "tests with change: $T"
(cd "$WT" && PYTHONPATH="$WT" timeout 600 /venv/bin/python "$OUT/demo.py" >/dev/null 2>&1); echo "demo with change: exit $?"
# (git stash is shared by all worktrees of a repository: revert/re-apply the diff instead)
(cd "$WT" && git diff > "$OUT/.current.diff" && git apply -R "$OUT/.current.diff" && PYTHONPATH="$WT" timeout 600 /venv/bin/python "$OUT/demo.py" >/dev/null 2>&1; echo "demo without change: exit $?"; git apply "$OUT/.current.diff")
cmp -s "$OUT/.current.diff" "$OUT/patch.diff" || echo "NOTE: worktree diff differs from delivered patch.diff"
cd /verif && bin/mutation-demo "$OUT/patch.diff" "$PID" "$TIER"; echo "mutation-demo rc=$?"
