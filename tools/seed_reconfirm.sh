#!/bin/bash
# tools/seed_reconfirm.sh <id>...   re-confirms stored seeds from seeded/<id>/ alone: in a scratch worktree of /repo the patch is
# applied, the repository's test suite must pass, demo.py must fail; with the patch reversed demo.py must pass.
for id in "$@"; do
  wt=/tmp/seedchk-$id
  git -C /repo worktree add --detach "$wt" HEAD >/dev/null 2>&1 || { echo "$id: cannot create worktree"; continue; }
  ( cd "$wt" && git apply /verif/seeded/$id/patch.diff ) || { echo "$id: patch does not apply"; git -C /repo worktree remove --force "$wt"; continue; }
  t=$(cd "$wt" && PYTHONPATH="$wt" /venv/bin/python -m pytest -q -p no:cacheprovider --timeout=900 -x -q 2>&1 | tail -1)
  (cd "$wt" && PYTHONPATH="$wt" /venv/bin/python /verif/seeded/$id/demo.py >/dev/null 2>&1); with=$?
  ( cd "$wt" && git apply -R /verif/seeded/$id/patch.diff )
  (cd "$wt" && PYTHONPATH="$wt" /venv/bin/python /verif/seeded/$id/demo.py >/dev/null 2>&1); without=$?
  echo "$id: tests[$t] demo with change exit=$with, without exit=$without"
  git -C /repo worktree remove --force "$wt"
done
