#!/usr/bin/env python3
"""tools/seed_store.py <seed id> <property> <detected: yes|after-strengthening> "<needs>" "<how detected / what was strengthened>" """
import json, os, shutil, sys
sid, pid, detected, needs, how = sys.argv[1:6]
src = "/tmp/seed/out-%s" % sid
dst = "/verif/seeded/%s" % sid
os.makedirs(dst, exist_ok=True)
for f in ("patch.diff", "demo.py", "notes.md"):
    if os.path.exists(os.path.join(src, f)):
        shutil.copy(os.path.join(src, f), dst)
meta = {
    "id": sid, "property": pid,
    "origin": "independent sub-agent given only the property text and a scratch worktree of /repo",
    "needs_to_manifest": needs,
    "confirmed": {"existing_tests_with_change": "337 passed", "demo_with_change": "fails (exit 1)", "demo_without_change": "passes (exit 0)",
                  "how": "tools/seed_eval.sh %s %s (pytest in the worktree, demo with change / after git stash, bin/mutation-demo)" % (sid, pid)},
    "detected_by": "bin/check %s quick" % pid,
    "detected": detected,
    "notes": how,
}
json.dump(meta, open(os.path.join(dst, "meta.json"), "w"), indent=1)
print("stored", dst)
