#!/bin/bash
# tools/seeded_regress.sh [ids...]   re-runs every stored seeded change (seeded/<id>/patch.diff) and hand-made mutant
# against the quick check of its property on a scratch copy and reports which are (still) detected.
cd "$(dirname "$0")/.." || exit 2
ids=("$@")
[ ${#ids[@]} -eq 0 ] && ids=($(ls seeded))
fail=0
for id in "${ids[@]}"; do
  pid=$(python3 -c "import json;print(json.load(open('seeded/$id/meta.json'))['property'])")
  if bin/mutation-demo "seeded/$id/patch.diff" "$pid" quick > "/tmp/seedreg-$id.txt" 2>&1; then
    echo "DETECTED  $id ($pid)  $(grep -m1 signature /tmp/seedreg-$id.txt | cut -c1-140)"
  else
    echo "MISSED    $id ($pid)  $(tail -1 /tmp/seedreg-$id.txt | cut -c1-140)"; fail=1
  fi
  rm -f "/tmp/seedreg-$id.txt"
done
exit $fail
