#!/bin/bash
# tools/seeded_regress_par.sh <jobs> [ids...]  parallel form of seeded_regress.sh; one line per seed in /tmp/seedreg/summary.txt
cd "$(dirname "$0")/.." || exit 2
J="$1"; shift
ids=("$@"); [ ${#ids[@]} -eq 0 ] && ids=($(ls seeded))
mkdir -p /tmp/seedreg; : > /tmp/seedreg/summary.txt
one() {
  id="$1"
  [ -f "seeded/$id/meta.json" ] || return 0
  # the check named in detected_by (a seed may be reported by another property's check than the one it was written for)
  pid=$(python3 -c "import json,re;m=json.load(open('seeded/$id/meta.json'));x=re.search(r'bin/check (C\d\d)', m.get('detected_by',''));print(x.group(1) if x else m['property'])")
  if bin/mutation-demo "seeded/$id/patch.diff" "$pid" quick > "/tmp/seedreg/$id.txt" 2>&1; then
    echo "DETECTED  $id ($pid)  $(grep -m1 signature /tmp/seedreg/$id.txt | cut -c1-140)" >> /tmp/seedreg/summary.txt
  else
    echo "MISSED    $id ($pid)  $(tail -1 /tmp/seedreg/$id.txt | cut -c1-140)" >> /tmp/seedreg/summary.txt
  fi
}
export -f one
printf "%s\n" "${ids[@]}" | xargs -P "$J" -I{} bash -c 'one {}'
sort /tmp/seedreg/summary.txt | grep -c DETECTED; grep MISSED /tmp/seedreg/summary.txt
