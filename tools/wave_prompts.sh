#!/bin/bash
# tools/wave_prompts.sh <suffix letter> <property>...   creates worktrees + prompt files for a wave; the "already used" text is
# assembled from seeded/*/meta.json (needs_to_manifest of every stored seed of that property).
suf="$1"; shift
for pid in "$@"; do
  used=$(python3 - "$pid" <<'P'
import json,glob,sys
out=[]
for f in sorted(glob.glob('/verif/seeded/*/meta.json')):
    m=json.load(open(f))
    if m['property']==sys.argv[1]: out.append(m['needs_to_manifest'])
print(' || '.join(out))
P
)
  python3 /verif/tools/make_seed_prompt.py "${pid}${suf}" "$pid" "$used"
done
